//! Global bookkeeping of the harness: event ledger, element ids, live set, fault counters, the
//! counting allocator and the panic capture.  The program is single-threaded; the state lives in
//! one static and is only touched through short, non-reentrant helper functions.

use std::alloc::{GlobalAlloc, Layout, System};
use std::cell::UnsafeCell;
use std::fmt::Write as _;
use std::panic::AssertUnwindSafe;
use std::sync::atomic::{AtomicBool, AtomicUsize, Ordering::Relaxed};

// ---------------------------------------------------------------------------------------------
// counting allocator
// ---------------------------------------------------------------------------------------------

pub struct CountingAlloc;

static COUNTING: AtomicBool = AtomicBool::new(false);
static ALLOCS: AtomicUsize = AtomicUsize::new(0);

unsafe impl GlobalAlloc for CountingAlloc {
    #[inline]
    unsafe fn alloc(&self, l: Layout) -> *mut u8 {
        if COUNTING.load(Relaxed) {
            count_one();
        }
        System.alloc(l)
    }
    #[inline]
    unsafe fn dealloc(&self, p: *mut u8, l: Layout) {
        System.dealloc(p, l)
    }
    #[inline]
    unsafe fn alloc_zeroed(&self, l: Layout) -> *mut u8 {
        if COUNTING.load(Relaxed) {
            count_one();
        }
        System.alloc_zeroed(l)
    }
    #[inline]
    unsafe fn realloc(&self, p: *mut u8, l: Layout, new_size: usize) -> *mut u8 {
        if COUNTING.load(Relaxed) {
            count_one();
        }
        System.realloc(p, l, new_size)
    }
}

/// An allocation made while a panic is in flight is the panic machinery's (message formatting,
/// exception object), not the crate's: `panic_count` is raised before the first of them.
#[inline]
fn count_one() {
    if !std::thread::panicking() {
        ALLOCS.fetch_add(1, Relaxed);
    }
}

/// Start counting allocations (immediately before a crate call).
#[inline]
pub fn count_on() {
    COUNTING.store(true, Relaxed);
}

/// Stop counting; returns the previous setting (user code uses it to restore on exit).
#[inline]
pub fn count_off() -> bool {
    COUNTING.swap(false, Relaxed)
}

#[inline]
pub fn count_restore(prev: bool) {
    COUNTING.store(prev, Relaxed);
}

#[inline]
pub fn allocs_reset() {
    ALLOCS.store(0, Relaxed);
}

#[inline]
pub fn allocs() -> usize {
    ALLOCS.load(Relaxed)
}

/// Evaluate a crate call with allocation counting switched on.
#[macro_export]
macro_rules! cc {
    ($e:expr) => {{
        $crate::ledger::count_on();
        let r = $e;
        $crate::ledger::count_off();
        r
    }};
}

// ---------------------------------------------------------------------------------------------
// state
// ---------------------------------------------------------------------------------------------

pub const F_DROP: usize = 0;
pub const F_CLONE: usize = 1;
pub const F_CALL: usize = 2;
pub const F_NEXT: usize = 3;
pub const F_EQ: usize = 4;

pub struct State {
    pub events: String,
    pub next_id: u32,
    pub live: Vec<u8>,
    pub faults: [u64; 5],
    pub silent: bool,
    pub panic_msg: String,
    pub panicked: bool,
    /// a panic has been raised and not yet been caught by `guard`
    pub in_flight: bool,
}

struct Global(UnsafeCell<State>);
unsafe impl Sync for Global {}

static ST: Global = Global(UnsafeCell::new(State {
    events: String::new(),
    next_id: 1,
    live: Vec::new(),
    faults: [0; 5],
    silent: false,
    panic_msg: String::new(),
    panicked: false,
    in_flight: false,
}));

type Out = std::io::BufWriter<std::io::Stdout>;
struct GlobalOut(UnsafeCell<Option<Out>>);
unsafe impl Sync for GlobalOut {}
static OUT: GlobalOut = GlobalOut(UnsafeCell::new(None));

#[inline]
pub fn st() -> &'static mut State {
    // single-threaded program, short non-reentrant accesses only
    unsafe { &mut *ST.0.get() }
}

/// the buffered standard output (global so that the panic hook can flush it before an abort)
#[inline]
pub fn out() -> &'static mut Out {
    // single-threaded; kept apart from `State` so that both can be used in one expression
    unsafe { &mut *OUT.0.get() }
        .get_or_insert_with(|| std::io::BufWriter::with_capacity(1 << 16, std::io::stdout()))
}

pub fn reset_case() {
    let s = st();
    s.events.clear();
    s.next_id = 1;
    s.live.clear();
    s.faults = [0; 5];
    s.silent = false;
}

pub fn begin_op(faults: [u64; 5]) {
    let s = st();
    s.events.clear();
    s.faults = faults;
    s.silent = false;
    allocs_reset();
}

pub fn end_op() {
    st().faults = [0; 5];
    count_off();
}

#[inline]
pub fn fresh_id() -> u32 {
    let s = st();
    let id = s.next_id;
    s.next_id = s.next_id.wrapping_add(1);
    id
}

#[inline]
pub fn is_live(id: u32) -> bool {
    let s = st();
    (id as usize) < s.live.len() && s.live[id as usize] == 1
}

/// handed out to the caller by the crate and kept by the harness
#[inline]
pub fn is_held(id: u32) -> bool {
    let s = st();
    (id as usize) < s.live.len() && s.live[id as usize] == 2
}

#[inline]
pub fn set_live(id: u32) {
    let s = st();
    let i = id as usize;
    if i >= s.live.len() {
        s.live.resize(i + 1, 0);
    }
    s.live[i] = 1;
}

/// The crate handed the element back to the caller: from now on the crate must not touch it.
#[inline]
pub fn set_held(id: u32) {
    let s = st();
    let i = id as usize;
    if i < s.live.len() {
        s.live[i] = 2;
    }
}

#[inline]
pub fn unset_live(id: u32) {
    let s = st();
    let i = id as usize;
    if i < s.live.len() {
        s.live[i] = 0;
    }
}

#[inline]
pub fn silent() -> bool {
    st().silent
}

/// Run `f` with the trait impls of the element types muted (no events, no fault ticks).
#[inline]
pub fn silently<R>(f: impl FnOnce() -> R) -> R {
    struct Restore(bool);
    impl Drop for Restore {
        fn drop(&mut self) {
            st().silent = self.0;
        }
    }
    let _g = Restore(std::mem::replace(&mut st().silent, true));
    f()
}

/// Decrement a fault counter; `true` = this call panics.
#[inline]
pub fn tick(kind: usize) -> bool {
    let f = &mut st().faults[kind];
    match *f {
        0 => false,
        1 => {
            *f = 0;
            true
        }
        _ => {
            *f -= 1;
            false
        }
    }
}

#[inline]
fn sep(e: &mut String) {
    if !e.is_empty() {
        e.push(' ');
    }
}

pub fn ev_given(id: u32) {
    let e = &mut st().events;
    sep(e);
    let _ = write!(e, "G{}", id);
}
pub fn ev_clone(id: u32, src: u32) {
    let e = &mut st().events;
    sep(e);
    let _ = write!(e, "C{}<{}", id, src);
}
pub fn ev_drop(id: u32) {
    let e = &mut st().events;
    sep(e);
    let _ = write!(e, "D{}", id);
}
pub fn ev_cmp(a: u32, b: u32) {
    let e = &mut st().events;
    sep(e);
    let _ = write!(e, "Q{}={}", a, b);
}
pub fn ev_hash(id: u32) {
    let e = &mut st().events;
    sep(e);
    let _ = write!(e, "H{}", id);
}
pub fn ev_fmt(id: u32) {
    let e = &mut st().events;
    sep(e);
    let _ = write!(e, "F{}", id);
}
pub fn ev_zombie(id: u32, what: &str) {
    let e = &mut st().events;
    sep(e);
    let _ = write!(e, "Z{}:{}", id, what);
}

// ---------------------------------------------------------------------------------------------
// panics
// ---------------------------------------------------------------------------------------------

pub fn install_panic_hook() {
    std::panic::set_hook(Box::new(|info| {
        // whatever the panic machinery allocates from here on is not the crate's doing
        count_off();
        let s = st();
        if s.in_flight {
            // second panic while the first one is still unwinding: the process is about to abort.
            // Save the completed lines and mark the line of this operation.
            use std::io::Write as _;
            s.in_flight = false;
            let o = out();
            let _ = o.write_all(b"P:abort\n");
            let _ = o.flush();
            return;
        }
        s.in_flight = true;
        if !s.panicked {
            s.panicked = true;
            s.panic_msg.clear();
            if let Some(m) = info.payload_as_str() {
                s.panic_msg.push_str(m);
            }
        }
    }));
}

/// Run `f`, catching an unwind.  Allocation counting is always off afterwards.
pub fn guard<R>(f: impl FnOnce() -> R) -> Result<R, ()> {
    st().panicked = false;
    let r = std::panic::catch_unwind(AssertUnwindSafe(f));
    st().in_flight = false;
    count_off();
    match r {
        Ok(v) => Ok(v),
        Err(p) => {
            // the payload is a `&str` or a `String`: dropping it cannot panic
            drop(p);
            Err(())
        }
    }
}

/// Classify the message of the last caught panic (table in PROTOCOL.md).
pub fn panic_kind() -> &'static str {
    let m: &str = &st().panic_msg;
    if let Some(k) = m.strip_prefix("INJECTED:") {
        return match k {
            "drop" => "drop",
            "clone" => "clone",
            "call" => "call",
            "next" => "next",
            "eq" => "eq",
            _ => "other",
        };
    }
    if m.contains("range end index") && m.contains("out of range for buffer") {
        "range_end"
    } else if m.contains("range starts at") {
        "range_order"
    } else if m.contains("range start index exceeds maximum usize") {
        "range_start_overflow"
    } else if m.contains("range end index exceeds maximum usize") {
        "range_end_overflow"
    } else if m.contains("i index out-of-bounds") {
        "swap_i"
    } else if m.contains("j index out-of-bounds") {
        "swap_j"
    } else if m.contains("index out-of-bounds") {
        "index"
    } else if m.contains("attempt to") && m.contains("with overflow") {
        "overflow"
    } else if m.contains("remainder") || m.contains("divide by zero") {
        "divzero"
    } else if m.contains("out of range for slice")
        || m.contains("mid > len")
        || m.contains("index out of bounds: the len is")
    {
        "oob"
    } else if m.contains("assertion") {
        "assert"
    } else {
        "other"
    }
}

pub fn panic_ret(ret: &mut String) {
    ret.clear();
    ret.push_str("P:");
    ret.push_str(panic_kind());
}

/// Owner of harness-side values (source slices, "other" buffers) whose destructors must stay
/// silent even when they run during an unwind.
pub struct Quiet<X>(std::mem::ManuallyDrop<X>);

impl<X> Quiet<X> {
    pub fn new(x: X) -> Self {
        Quiet(std::mem::ManuallyDrop::new(x))
    }
}
impl<X> std::ops::Deref for Quiet<X> {
    type Target = X;
    fn deref(&self) -> &X {
        &self.0
    }
}
impl<X> std::ops::DerefMut for Quiet<X> {
    fn deref_mut(&mut self) -> &mut X {
        &mut self.0
    }
}
impl<X> Drop for Quiet<X> {
    fn drop(&mut self) {
        let prev_c = count_off();
        let prev = std::mem::replace(&mut st().silent, true);
        // a silent destructor never panics on its own; a crate defect that makes it panic while
        // already unwinding aborts the process, which the caller detects
        unsafe { std::mem::ManuallyDrop::drop(&mut self.0) };
        st().silent = prev;
        count_restore(prev_c);
    }
}
