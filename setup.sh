#!/bin/bash
# Build the framework from files on disk only (offline).
set -e
cd "$(dirname "$(readlink -f "$0")")"
V="$(pwd)"
export CARGO_NET_OFFLINE=true
python3 translate/t1_addmod.py /repo/src/lib.rs lean/CircBuf/CircBuf/Generated/AddMod.lean
# T3 checks that what it emits elaborates, so the modules it targets are built first
(cd lean/CircBuf && lake build CircBuf.Model CircBuf.GenPrelude)
python3 translate/t3_core.py /repo/src/lib.rs lean/CircBuf/CircBuf/Generated/Core.lean
(cd lean/CircBuf && lake build)
(cd harness && CARGO_TARGET_DIR="$V/.work/target" cargo build --offline --quiet)
echo "setup ok"
