#!/usr/bin/env python3
"""check.py <ID> [--tier quick|thorough] [--replay <file>]

Decides one property of /repo's current working tree:
  1. re-checks the Lean theorems of the property (after regenerating the translated definitions),
     audits their axioms, greps for forbidden constructs;
  2. builds the Rust harness against the current tree (hooks on) and runs the property's case set
     through the real crate and through the model's executable definitions;
  3. evaluates the property's own oracle on the implementation traces and compares model and
     implementation traces under the property's projection;
  4. reports: exit 0 (held on everything explored) / exit 1 + `VIOLATION property=<id> replay=<path>`
     (ending in `no-failing-input-found` when only a theorem or the correspondence broke) /
     exit 2 (infrastructure failure; no verdict).
"""
import argparse, json, os, re, sys, time, hashlib
sys.path.insert(0, os.path.dirname(os.path.abspath(__file__)))
from vlib import engine as E
from vlib import props as P
from vlib.registry import REGISTRY


def nontrivial(model_out):
    for r in model_out[1:]:
        l = E.Line(r)
        if l.size > 0 or l.events or l.ret not in ("-", "N", ""):
            return True
    return False


def minimise(case, fails):
    """greedy line removal keeping the failure"""
    cur = list(case)
    changed = True
    budget = 200
    deadline = time.time() + 120          # a replay that is merely small-ish beats a check that never ends
    while changed and budget > 0:
        changed = False
        for i in range(len(cur) - 1, 0, -1):
            cand = cur[:i] + cur[i + 1:]
            budget -= 1
            if budget <= 0 or time.time() > deadline:
                budget = 0
                break
            if len(cand) >= 2 and fails(cand):
                cur = cand
                changed = True
    return cur


def run_cases(reg, binp, cases, extra_args=()):
    impl = E.run_impl(binp, cases, extra_args)
    model = E.run_model(cases)
    return impl, model


def evaluate(reg, case, impl_out, model_out):
    """returns (oracle_problems, mismatches(list of (idx, op, impl, model)), physical_only_drift)"""
    problems = []
    for o in reg["oracles"]:
        problems += o(case, impl_out)
    mism, drift = [], []
    proj = reg["projection"]
    n = min(len(impl_out), len(model_out))
    for i in range(n):
        a, b = impl_out[i], model_out[i]
        if a == b:
            continue
        la, lb = E.Line(a), E.Line(b)
        if proj(la, case[i]) != proj(lb, case[i]):
            mism.append((i, case[i], a, b))
        else:
            drift.append((i, case[i], a, b))
    if len(impl_out) != len(model_out) and not mism:
        mism.append((n, case[n] if n < len(case) else "?", impl_out[-1] if impl_out else "", "(model continues)"))
    return problems, mism, drift


def main():
    ap = argparse.ArgumentParser()
    ap.add_argument("pid")
    ap.add_argument("--tier", default=os.environ.get("VERIF_TIER", "quick"))
    ap.add_argument("--replay")
    ap.add_argument("--skip-lean", action="store_true", help="development aid: skip the Lean side")
    ap.add_argument("--variant", default=None, help="internal")
    args = ap.parse_args()
    pid = args.pid
    tier = args.tier if args.tier in ("quick", "thorough") else "quick"
    seed = int(os.environ.get("VERIF_SEED", "1") or 1)
    if args.skip_lean:
        E.EVIDENCE_DIR = os.path.join(E.WORK, "dev-evidence")
    if args.replay:
        E.EVIDENCE_DIR = os.path.join(E.WORK, "replay-evidence")     # a replay is not a run of the check
    if pid not in REGISTRY:
        print(f"unknown property {pid}"); sys.exit(2)
    reg = REGISTRY[pid]
    t0 = time.time()
    try:
        if reg.get("custom"):
            rc = reg["custom"](pid, tier, seed, args)
            sys.exit(rc)
        rc = standard_check(pid, reg, tier, seed, args, t0)
        sys.exit(rc)
    except E.Infra as e:
        print(f"INFRASTRUCTURE FAILURE (no verdict for {pid}): {e}")
        sys.exit(2)


def lean_side(pid, reg, args):
    """returns dict(obligations, discharged, broken[list of str], axioms, log)"""
    res = dict(obligations=0, discharged=0, broken=[], axioms={}, notes=[])
    theorems = reg["theorems"]
    res["obligations"] = len(theorems)
    if args.skip_lean:
        res["notes"].append("lean side skipped (--skip-lean)")
        res["discharged"] = 0
        return res
    ok, msg = E.run_t1()
    res["notes"].append(msg)
    t1_problem = None
    if not ok:
        t1_problem = "translator:T1(add_mod/sub_mod): " + msg
    else:
        # the specification of the translated helpers (`addMod_spec`, `subMod_spec`) must re-check
        okA, logA = E.lake_build(["CircBuf.Lemmas.AddModSpec"])
        if not okA:
            t1_problem = "theorem:addMod_spec / subMod_spec no longer check on the translated add_mod / sub_mod: " + \
                ", ".join(E.failed_decls(logA) or ["(see log)"])
    if t1_problem:
        # `add_mod`/`sub_mod` as they are now are not (shown to be) the functions the model uses.  The model
        # keeps the pinned translation — for it the helpers are then tied to the source by the
        # correspondence run only (C19 runs them directly on a lattice of arguments) — and the broken
        # obligation is charged to the property that is *about* this arithmetic: C19.
        import shutil
        shutil.copy(os.path.join(E.VERIF, "translate", "AddMod.pinned.lean"),
                    os.path.join(E.LEAN, "CircBuf", "Generated", "AddMod.lean"))
        res["notes"].append("T1 fallback: the model keeps the pinned translation of add_mod/sub_mod (" + t1_problem + ")")
        if pid == "C19":
            res["broken"].append(t1_problem)
    ok3, msg3, untranslatable = E.run_t3()
    res["notes"].append(msg3)
    res["t3"] = dict(ok=ok3, message=msg3, untranslatable=[f"{f}: {w}" for f, w in untranslatable])
    if not ok3 and any(m.startswith("CircBuf.Props.Src") for m, _ in theorems):
        # no translation of this tree exists: whatever `Generated/Core.lean` holds, the theorems about the
        # translated source say nothing about it
        res["broken"].append("translator:T3 could not regenerate Generated/Core.lean from this tree: " + msg3)
    mods = sorted(set(m for m, _ in theorems))
    ok, log = E.lake_build(mods + ["driver"])
    res["driver_ok"] = True
    res["failed_modules"] = []
    # declarations made with `maybe` (the ties and the theorems restated about the translated source) that
    # no longer elaborate are left out of their module instead of failing it; the audit below reports the
    # registered ones as missing, this names the place and the first error
    for where, what in re.findall(r"warning: (CircBuf/\S+?\.lean:\d+):\d+: maybe: declaration skipped — ([^\n]*)", log):
        res["notes"].append(f"skipped {where}: {what[:160]}")
    if not ok:
        # localise: which of the property's modules no longer check?  (the others are still audited)
        res["log"] = log[-4000:]
        known = E.failed_modules_of(log, mods)
        if known is not None:
            for m in known:
                res["failed_modules"].append(m)
                res["broken"].append(f"module:{m} does not build: " + ", ".join(E.failed_decls(log) or ["(see log)"]))
            # the modules lake skipped because a sibling failed first still have to be built
            rest = [m for m in mods if m not in known]
            if rest:
                okr, logr = E.lake_build(rest)
                if not okr:
                    more = E.failed_modules_of(logr, rest) or rest
                    for m in more:
                        res["failed_modules"].append(m)
                        res["broken"].append(f"module:{m} does not build: " + ", ".join(E.failed_decls(logr) or ["(see log)"]))
        else:
            for m in mods:
                okm, logm = E.lake_build([m])
                if not okm:
                    res["failed_modules"].append(m)
                    res["broken"].append(f"module:{m} does not build: " + ", ".join(E.failed_decls(logm) or ["(see log)"]))
        okd, _ = E.lake_build(["driver"])
        res["driver_ok"] = okd
        if not okd:
            res["broken"].append("model driver does not build")
    oks, logs = E.lake_build(["driver_src"])
    res["driver_src_ok"] = oks
    if not oks:
        res["notes"].append("driver_src (translated core) does not build: " + ", ".join(E.failed_decls(logs) or ["(see log)"]))
    theorems = [(m, t) for m, t in theorems if m not in res["failed_modules"]]
    for m, t in reg["theorems"]:
        if m in res["failed_modules"]:
            res["broken"].append(f"theorem:{t} (in {m}) does not check")
    hits = E.grep_forbidden()
    if hits:
        res["broken"].append("forbidden construct in Lean sources: " + "; ".join(hits[:5]))
    if getattr(args, "tier", "quick") == "thorough":
        # independent re-check of the compiled proofs (Lean's stand-alone kernel re-checker)
        mods_ok = sorted(set(m for m, _ in theorems))
        if mods_ok:
            rc, out, err = E.sh(["lake", "env", "leanchecker"] + mods_ok, cwd=E.LEAN, timeout=3600)
            if rc != 0:
                res["broken"].append("leanchecker rejects the compiled modules: " + (out + err)[-400:])
            else:
                res["notes"].append(f"leanchecker: {len(mods_ok)} module(s) re-checked")
    ax, txt = E.audit_axioms(theorems) if theorems else ({}, "")
    res["axioms"] = ax
    for t, a in ax.items():
        if a is None:
            res["broken"].append(f"theorem:{t} is missing or does not check")
        elif not set(a) <= E.ALLOWED_AXIOMS:
            res["broken"].append(f"theorem:{t} depends on axioms {a}")
        else:
            res["discharged"] += 1
    return res


def standard_check(pid, reg, tier, seed, args, t0):
    lean = lean_side(pid, reg, args)
    variants = reg.get("variants") or [dict(features=reg.get("features", ()), nightly=reg.get("nightly", False),
                                            harness_args=reg.get("harness_args", ()), label="default")]
    if len(variants) > 1 and not args.variant:
        # run every build / trait-family variant in turn (each is a full standard check); merge verdicts
        rcs = []
        evs = []
        for v in variants:
            sub = dict(reg); sub["variants"] = [v]
            rc = standard_check(pid, sub, tier, seed, args, time.time())
            rcs.append(rc)
            evs.append(json.load(open(os.path.join(E.EVIDENCE_DIR, f"{pid}.json"))))
        merged = evs[0]
        merged["coverage"]["variants"] = [dict(label=v["label"], evaluations=e["coverage"]["evaluations"],
                                               violations=e.get("violations", 0),
                                               correspondence=e["coverage"]["correspondence"]) for v, e in zip(variants, evs)]
        merged["coverage"]["evaluations"] = sum(e["coverage"]["evaluations"] for e in evs)
        merged["coverage"]["programs"] = len(variants)
        merged["coverage"]["disagreements_checked"] = sum(e["coverage"]["correspondence"]["projection_mismatches"] + e["coverage"]["correspondence"]["oracle_failures"] for e in evs)
        merged["violations"] = sum(e.get("violations", 0) for e in evs)
        merged["wall_s"] = round(time.time() - t0, 2)
        E.write_evidence(pid, merged)
        return 1 if any(rcs) else 0
    v0 = variants[0]
    binp = E.build_harness(v0.get("features", ()), v0.get("nightly", False))
    extra = v0.get("harness_args", ())
    # source-drift sentinel: which source items changed since the model was written?
    drifted = []
    try:
        sys.path.insert(0, os.path.join(E.VERIF, "translate"))
        import fingerprint
        rec = json.load(open(os.path.join(E.VERIF, "model_map.json")))["functions"]
        drifted = fingerprint.drift(os.path.join(E.REPO, "src"), rec)
    except Exception as ex:       # the sentinel is an aid, never a reason to fail
        drifted = [f"(sentinel unavailable: {ex})"]
    if args.replay:
        rp = json.load(open(args.replay))
        cases = [rp["script"]]
    else:
        cases = reg["cases"](tier, seed)
        if drifted and tier == "quick" and not drifted[0].startswith("(sentinel"):
            # the code is not the code the model was written against: explore more (a sample of the
            # thorough case set, bounded so that the quick check stays a quick check)
            more_cases = reg["cases"]("thorough", seed)
            step = max(1, len(more_cases) // 60000)
            cases = cases + more_cases[::step]
    # de-duplicate
    seen, uniq = set(), []
    for c in cases:
        k = "\n".join(c)
        if k not in seen:
            seen.add(k); uniq.append(c)
    cases = uniq
    driver_ok = lean.get("driver_ok", True) and os.path.exists(E.DRIVER)
    impl = E.run_impl(binp, cases, extra)
    model = E.run_model(cases) if driver_ok else [None] * len(cases)
    # the translated core (T3) next to the real crate: validates the translator on this very tree
    src_stats = dict(ran=False)
    src_fail = []
    if lean.get("driver_src_ok") and os.path.exists(E.DRIVER_SRC) and not args.skip_lean:
        msrc = E.run_model_src(cases)
        nsrc = 0
        for c, io, mo in zip(cases, impl, msrc):
            if mo is None or (io and io[0] == "NOT-RUN") or any(r == "bad-op" for r in io):
                continue
            nsrc += 1
            _, mism, _ = evaluate(dict(reg, oracles=[]), c, io, mo)
            if mism:
                src_fail.append((c, io, mo, mism))
        src_stats = dict(ran=True, cases=nsrc, mismatches=len(src_fail))
    ref_bin = None
    if reg.get("reference_default_build"):
        # implementation-vs-implementation oracle: the default stable build on the same scripts
        ref_bin = E.build_harness((), False)
        ref_out = {}

        def prime_ref(cs):
            todo = [c for c in cs if "\n".join(c) not in ref_out]
            for c, r in zip(todo, E.run_impl(ref_bin, todo, ())):
                ref_out["\n".join(c)] = r
        prime_ref(cases)

        def o_same_as_default(case, out):
            ro = ref_out.get("\n".join(case))
            if ro is None:
                ro = E.run_impl(ref_bin, [case], (), timeout_per_batch=5)[0]
            for op, a, b in zip(case, out, ro):
                if a != b:
                    return [f"`{op}`: this build prints {a!r}, the default stable build prints {b!r}"]
            return []
        reg = dict(reg); reg["oracles"] = list(reg["oracles"]) + [o_same_as_default]

    oracle_fail, corr_fail, drifts = [], [], 0
    unsupported = 0
    nontriv = 0
    opcount = {}
    for c, io, mo in zip(cases, impl, model):
        if io and io[0] == "NOT-RUN":
            continue
        if any(r == "bad-op" for r in io):
            # the harness has no instantiation for this case (capacity / array length / element kind):
            # an infrastructure limit, not a statement about the crate
            unsupported += 1
            continue
        for l in c[1:]:
            k = l.split()[0]
            opcount[k] = opcount.get(k, 0) + 1
        if mo is not None:
            if nontrivial(mo):
                nontriv += 1
            problems, mism, drift = evaluate(reg, c, io, mo)
        else:
            problems = [p for o in reg["oracles"] for p in o(c, io)]
            mism, drift = [], []
        if problems:
            oracle_fail.append((c, io, mo, problems))
        elif mism:
            corr_fail.append((c, io, mo, mism))
        if drift:
            drifts += 1

    # thorough tier: a sample of the cases under Miri (undefined behaviour in the real code)
    miri_stats = dict(ran=False)
    if tier == "thorough" and not args.replay and reg.get("miri") and not v0.get("nightly") and not oracle_fail:
        sample = [c for c in cases[:: max(1, len(cases) // 250)] if len(c) <= 30][:250]
        mres, mprob = E.run_miri(sample, v0.get("features", ()), extra)
        ref = dict(("\n".join(c), io) for c, io in zip(cases, impl))
        differ = [(c, r) for c, r in zip(sample, mres) if r is not None and ref.get("\n".join(c)) not in (None, r)]
        miri_stats = dict(ran=True, cases=len(sample), completed=sum(1 for r in mres if r is not None),
                          problem=(mprob or {}).get("what"), outputs_differ=len(differ))
        if mprob and mprob.get("case") is not None:
            c = sample[mprob["case"]]
            oracle_fail.append((c, impl[cases.index(c)] if c in cases else [], None,
                                [f"miri: {mprob['what']} while running this script", mprob["stderr"][-600:]]))
        elif differ:
            c, r = differ[0]
            oracle_fail.append((c, r, None, ["miri: the interpreted run prints something else than the native run"]))
    if ref_bin and corr_fail:
        # this property is about *two builds agreeing*: a disagreement with the model that the reference
        # build shows in exactly the same way says nothing about it (the reference oracle above has
        # already flagged every script on which the builds differ)
        same = [x for x in corr_fail if ref_out.get("\n".join(x[0])) == x[1]]
        corr_same_as_reference = len(same)
        corr_fail = [x for x in corr_fail if ref_out.get("\n".join(x[0])) != x[1]]
    else:
        corr_same_as_reference = 0
    for xo in reg.get("cross_oracles", []):
        for ci, problem in xo(cases, impl):
            if not any(c is cases[ci] for c, _, _, _ in oracle_fail):
                oracle_fail.append((cases[ci], impl[ci], model[ci], [problem]))
    violations = []      # (replay_path, suffix)
    fixed, opened = E.known_findings()

    def fails_oracle(cand):
        io = E.run_impl(binp, [cand], extra, timeout_per_batch=5)[0]
        return any(o(cand, io) for o in reg["oracles"])

    def fails_corr(cand):
        io = E.run_impl(binp, [cand], extra, timeout_per_batch=5)[0]
        mo = E.run_model([cand], timeout_per_batch=5)[0]
        _, mism, _ = evaluate(reg, cand, io, mo)
        return bool(mism)

    if oracle_fail:
        c, io, mo, problems = min(oracle_fail, key=lambda x: len(x[0]))
        small = minimise(c, fails_oracle) if fails_oracle(c) else c
        io2 = E.run_impl(binp, [small], extra)[0]
        pr2 = [p for o in reg["oracles"] for p in o(small, io2)] or problems
        path = E.write_replay(pid, "oracle", dict(script=small, impl_trace=io2, problems=pr2,
                                                  failing_cases=len(oracle_fail),
                                                  replay_cmd=f"python3 check.py {pid} --replay <this file>"))
        violations.append((path, ""))
    elif corr_fail:
        # the correspondence is broken; the oracle held on the case set.  Search harder for an input on
        # which the property itself fails (thorough generation, oracle only).
        found = None
        if tier == "quick" and not args.replay:
            more = reg["cases"]("thorough", seed + 1)
            more = more[::max(1, len(more) // 80000)]     # bounded: the quick check stays a quick check
            impl2 = E.run_impl(binp, more, extra)
            if ref_bin:
                prime_ref(more)
            for c2, io2 in zip(more, impl2):
                pr = [p for o in reg["oracles"] for p in o(c2, io2)]
                if pr:
                    found = (c2, io2, pr); break
        c, io, mo, mism = min(corr_fail, key=lambda x: len(x[0]))
        if found:
            c2, io2, pr = found
            small = minimise(c2, fails_oracle)
            path = E.write_replay(pid, "oracle", dict(script=small, impl_trace=E.run_impl(binp, [small], extra)[0],
                                                      problems=pr))
            violations.append((path, ""))
        else:
            small = minimise(c, fails_corr)
            io3 = E.run_impl(binp, [small], extra)[0]
            mo3 = E.run_model([small])[0]
            _, mism3, _ = evaluate(reg, small, io3, mo3)
            ops = sorted(set(m[1].split()[0] for m in (mism3 or mism)))
            path = E.write_replay(pid, "correspondence", dict(
                broken=[f"correspondence:pi_{pid}:{o}" for o in ops], script=small, impl_trace=io3, model_trace=mo3,
                differing=[dict(line=i, op=o, impl=a, model=b) for i, o, a, b in (mism3 or mism)][:5],
                cases_differing=len(corr_fail)))
            violations.append((path, " no-failing-input-found"))
    if src_fail and not violations:
        # impl and hand model agree, the oracles hold, but the definitions translated from the source
        # behave differently from the source: the translator (trusted base) is unfaithful here
        c, io, mo, mism = min(src_fail, key=lambda x: len(x[0]))
        ops = sorted(set(m[1].split()[0] for m in mism))
        path = E.write_replay(pid, "translator", dict(
            broken=[f"correspondence:T3:{o}" for o in ops], script=c, impl_trace=io, translated_model_trace=mo,
            differing=[dict(line=i, op=o, impl=a, translated=b) for i, o, a, b in mism][:5],
            cases_differing=len(src_fail),
            note="the real crate and the Lean definitions translated from its source (Generated/Core.lean) disagree"))
        violations.append((path, " no-failing-input-found"))
    extra_notes = []
    for f in reg.get("extra_checks", []):
        pr, note = f()
        extra_notes.append(note)
        if pr:
            path = E.write_replay(pid, "build-or-source", dict(problems=pr, note=note))
            violations.append((path, ""))
    if lean["broken"] and not violations and not reg.get("lean_not_decisive"):
        path = E.write_replay(pid, "proof-obligation", dict(broken=lean["broken"], log=lean.get("log", ""),
                                                            note="no failing input found by the correspondence run and the oracle on this tier"))
        violations.append((path, " no-failing-input-found"))

    # evidence
    samples = [dict(script=c, model_trace=m) for c, m in list(zip(cases, model))[:: max(1, len(cases) // 3)][:3]]
    ev = dict(
        property_id=pid, tier=tier, seed=seed, level=reg["level"],
        coverage=dict(
            obligations=max(lean["obligations"], 1), discharged=lean["discharged"],
            checker_cmd=f"cd lean/CircBuf && lake build {' '.join(sorted(set(m for m, _ in reg['theorems'])))} && lake env lean <audit file: #print axioms for each theorem>",
            trusted_base=["Lean 4.33.0 kernel", "axioms: " + json.dumps({k: v for k, v in lean["axioms"].items()}),
                          "T1 translator (translate/t1_addmod.py) for add_mod/sub_mod",
                          "T3 translator (translate/t3_core.py) for the element-level core, validated on every run by running the translated definitions next to the crate (driver_src)",
                          "hand-written model CircBuf/Model.lean validated by this correspondence run",
                          "Rust harness + hooks (verif_raw, verif_items_mut)"],
            theorems=[t for _, t in reg["theorems"]],
            evaluations=len(cases), distinct_nontrivial=nontriv,
            rule=reg.get("rule", "cases = exhaustive layouts (front position x length) for small capacities x operation/argument sets of the property (+ seeded random histories); distinct by script text; non-trivial = the model trace has an element in the buffer, an event or a non-unit result"),
            samples=samples, exhaustive=False,
            traces_validated_against_impl=len(cases) if driver_ok else 0,
            correspondence=dict(cases=len(cases), lines=sum(len(c) for c in cases), oracle_failures=len(oracle_fail),
                                projection_mismatches=len(corr_fail), physical_only_drift_cases=drifts,
                                mismatches_shared_with_reference_build=corr_same_as_reference,
                                cases_without_harness_instantiation=unsupported,
                                operations=opcount),
            proof_obligations_broken=lean["broken"], notes=lean["notes"] + extra_notes,
            translated_source=dict(translator="translate/t3_core.py -> Generated/Core.lean", **lean.get("t3", {}),
                                   driver_src=src_stats),
            miri=miri_stats,
            source_drift=dict(changed_since_modelled=drifted,
                              effect="none" if not drifted else "quick tier widened by a sample of the thorough case set"),
            explanation=reg.get("explanation", ""),
        ),
        assumptions=reg.get("assumptions", []),
        wall_s=round(time.time() - t0, 2), violations=len(violations))
    E.write_evidence(pid, ev)
    for path, suffix in violations:
        print(f"VIOLATION property={pid} replay={os.path.relpath(path, E.VERIF)}{suffix}")
    if not violations:
        print(f"{pid}[{v0.get('label','default')}]: ok — {lean['discharged']}/{lean['obligations']} theorems checked, {len(cases)} cases "
              f"({sum(len(c) for c in cases)} lines) agree, oracle holds, {time.time()-t0:.1f}s")
    return 1 if violations else 0


if __name__ == "__main__":
    main()
